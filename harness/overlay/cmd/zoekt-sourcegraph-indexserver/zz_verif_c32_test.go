package main

// C32 correspondence + oracle: the real cleanup() on generated index directories made of real tiny
// shards (simple shards written with index.NewShardBuilder, compound shards with index.Merge,
// tombstones with index.SetTombstone, trash with old/fresh/future mtimes, renamed repositories,
// temp files), twice in a row. Mapped into the package by `go test -overlay`.
// cleanup.go is mapped as a copy in which moveAll's os.Rename goes through the zzfs shim (translator/fsinstrument,
// see props/C32/prop.py): in 30% of the cases the renames of one or two shards are made to fail during the first
// cleanup, which exercises moveAll's failure fallback ("failed to move shard, deleting all shards").

import (
	"fmt"
	"io"
	"log"
	"os"
	"path/filepath"
	"sort"
	"strings"
	"testing"
	"time"

	"github.com/sourcegraph/zoekt"
	"github.com/sourcegraph/zoekt/index"
	"github.com/sourcegraph/zoekt/internal/zzfs"
)

const vfC32Now = int64(1700000000)

type vfC32Entry struct {
	id   uint32
	name string
	tomb bool
	date int64
}

type vfC32File struct {
	base     string
	compound bool
	mtime    int64 // relative to now
	entries  []vfC32Entry
}

type vfC32Dir struct {
	index, trash []vfC32File
	tmps         int
}

func vfC32Name(id uint32, renamed bool) string {
	p := "r"
	if id%2 == 1 {
		p = "a"
	}
	s := fmt.Sprintf("%s%d", p, id)
	if renamed {
		s += "x"
	}
	return s
}

func vfC32NameID(name string) uint64 {
	var id uint64
	renamed := strings.HasSuffix(name, "x")
	fmt.Sscanf(strings.TrimSuffix(name, "x")[1:], "%d", &id)
	if renamed {
		return 2*id + 1
	}
	return 2 * id
}

func vfC32WriteSimple(t *testing.T, path string, id uint32, name string, date int64) {
	if err := os.MkdirAll(filepath.Dir(path), 0o755); err != nil {
		t.Fatal(err)
	}
	r := &zoekt.Repository{ID: id, Name: name, LatestCommitDate: time.Unix(date, 0).UTC()}
	b, err := index.NewShardBuilder(r)
	if err != nil {
		t.Fatal(err)
	}
	if err := b.Add(index.Document{Name: "F", Content: []byte("hello " + name + "\n")}); err != nil {
		t.Fatal(err)
	}
	f, err := os.OpenFile(path, os.O_WRONLY|os.O_CREATE|os.O_TRUNC, 0o644)
	if err != nil {
		t.Fatal(err)
	}
	if err := b.Write(f); err != nil {
		t.Fatal(err)
	}
	if err := f.Close(); err != nil {
		t.Fatal(err)
	}
}

func vfC32WriteCompound(t *testing.T, scratch, path string, es []vfC32Entry) {
	var files []index.IndexFile
	for i, e := range es {
		p := filepath.Join(scratch, fmt.Sprintf("s%d.zoekt", i))
		vfC32WriteSimple(t, p, e.id, e.name, e.date)
		f, err := os.Open(p)
		if err != nil {
			t.Fatal(err)
		}
		inf, err := index.NewIndexFile(f)
		if err != nil {
			t.Fatal(err)
		}
		files = append(files, inf)
	}
	tmpName, _, err := index.Merge(scratch, files...)
	if err != nil {
		t.Fatal(err)
	}
	for _, f := range files {
		f.Close()
	}
	if err := os.Rename(tmpName, path); err != nil {
		t.Fatal(err)
	}
	for _, e := range es {
		if e.tomb {
			if err := index.SetTombstone(path, e.id); err != nil {
				t.Fatal(err)
			}
		}
	}
}

func vfC32Read(t *testing.T, dir string) []vfC32File {
	d, err := os.Open(dir)
	if err != nil {
		return nil
	}
	defer d.Close()
	names, _ := d.Readdirnames(-1)
	sort.Strings(names)
	var out []vfC32File
	for _, n := range names {
		p := filepath.Join(dir, n)
		fi, err := os.Stat(p)
		if err != nil || fi.IsDir() || filepath.Ext(p) != ".zoekt" {
			continue
		}
		repos, _, err := index.ReadMetadataPath(p)
		if err != nil {
			t.Fatalf("unreadable shard %s: %v", p, err)
		}
		f := vfC32File{base: n, compound: strings.HasPrefix(n, "compound-"), mtime: fi.ModTime().Unix() - vfC32Now}
		for _, r := range repos {
			f.entries = append(f.entries, vfC32Entry{id: r.ID, name: r.Name, tomb: r.Tombstone, date: r.LatestCommitDate.Unix()})
		}
		out = append(out, f)
	}
	return out
}

func vfC32Observe(t *testing.T, dir string) vfC32Dir {
	tmps, _ := filepath.Glob(filepath.Join(dir, "*.tmp"))
	return vfC32Dir{index: vfC32Read(t, dir), trash: vfC32Read(t, filepath.Join(dir, ".trash")), tmps: len(tmps)}
}

func vfC32DirTerm(d vfC32Dir, baseID map[string]uint64) string {
	files := func(fs []vfC32File) string {
		if len(fs) == 0 {
			return "[]"
		}
		var ts []string
		for _, f := range fs {
			var es []string
			for _, e := range f.entries {
				es = append(es, cTuple(cN(uint64(e.id)), cN(vfC32NameID(e.name)), cBool(e.tomb), cZ(e.date)))
			}
			el := "[]"
			if len(es) > 0 {
				el = cList(es)
			}
			ts = append(ts, cTuple(cN(baseID[f.base]), cBool(f.compound), cZ(f.mtime), el))
		}
		return cList(ts)
	}
	return cTuple(files(d.index), files(d.trash), cN(uint64(d.tmps)))
}

func vfC32Desc(d vfC32Dir) map[string]any {
	files := func(fs []vfC32File) []string {
		var out []string
		for _, f := range fs {
			var es []string
			for _, e := range f.entries {
				s := fmt.Sprintf("%d:%s", e.id, e.name)
				if e.tomb {
					s += ":tombstoned"
				}
				es = append(es, s)
			}
			out = append(out, fmt.Sprintf("%s mtime=now%+ds [%s]", f.base, f.mtime, strings.Join(es, " ")))
		}
		return out
	}
	return map[string]any{"index": files(d.index), "trash": files(d.trash), "tmp_files": d.tmps}
}

// alive (id -> files) view of a listing
func vfC32Alive(fs []vfC32File) map[uint32][]vfC32File {
	m := map[uint32][]vfC32File{}
	for _, f := range fs {
		for _, e := range f.entries {
			if !e.tomb {
				m[e.id] = append(m[e.id], f)
			}
		}
	}
	return m
}

func vfC32AliveName(f vfC32File, id uint32) (string, bool) {
	for _, e := range f.entries {
		if e.id == id && !e.tomb {
			return e.name, true
		}
	}
	return "", false
}

func vfC32Find(fs []vfC32File, base string) *vfC32File {
	for i := range fs {
		if fs[i].base == base {
			return &fs[i]
		}
	}
	return nil
}

func TestVerifC32(t *testing.T) {
	r := vfNewRand(vfSeed())
	n := vfN(120)
	root := filepath.Join(os.Getenv("VERIF_TMP"), "c32")
	if os.Getenv("VERIF_TMP") == "" {
		root = t.TempDir()
	}
	defer os.RemoveAll(root)
	for _, l := range []*log.Logger{infoLog, errorLog, debugLog} {
		l.SetOutput(io.Discard)
	}
	now := time.Unix(vfC32Now, 0)
	deltas := []int64{-100000, -86401, -86400, -86399, -3600, -60, 0, 3600}
	dates := []int64{1000, 2000, 3000}

	for ci := 0; ci < n; ci++ {
		dir := filepath.Join(root, fmt.Sprintf("case%d", ci))
		trashDir := filepath.Join(dir, ".trash")
		scratch := filepath.Join(root, fmt.Sprintf("scratch%d", ci))
		os.MkdirAll(trashDir, 0o755)
		os.MkdirAll(scratch, 0o755)
		sm := r.Chance(65)
		nids := 2 + r.Intn(5)
		var classes []string
		classes = append(classes, fmt.Sprintf("shardMerging=%v", sm))
		setMtime := func(p string) {
			mt := time.Unix(vfC32Now+deltas[r.Intn(len(deltas))], 0)
			if err := os.Chtimes(p, mt, mt); err != nil {
				t.Fatal(err)
			}
		}
		// ---- simple shards in the index
		for id := uint32(1); id <= uint32(nids); id++ {
			if !r.Chance(55) {
				continue
			}
			name := vfC32Name(id, false)
			ns := []int{1, 1, 1, 1, 2, 2, 2, 3, 3, 4}[r.Intn(10)] // 60% multi-shard repositories
			for k := 0; k < ns; k++ {
				p := filepath.Join(dir, fmt.Sprintf("%s_v16.%05d.zoekt", name, k))
				vfC32WriteSimple(t, p, id, name, dates[r.Intn(len(dates))])
				setMtime(p)
			}
			if ns > 1 {
				classes = append(classes, "multi-shard:index")
			}
			if r.Chance(15) { // renamed repository: same id, other name
				nn := vfC32Name(id, true)
				p := filepath.Join(dir, fmt.Sprintf("%s_v16.%05d.zoekt", nn, 0))
				vfC32WriteSimple(t, p, id, nn, dates[r.Intn(len(dates))])
				setMtime(p)
				classes = append(classes, "renamed")
			}
		}
		// ---- compound shards in the index
		nc := r.Intn(3)
		if r.Chance(20) {
			nc = 0
		}
		var prevTombs []vfC32Entry
		for c := 0; c < nc; c++ {
			var es []vfC32Entry
			seen := map[uint32]bool{}
			ne := 1 + r.Intn(3)
			for k := 0; k < ne; k++ {
				id := uint32(1 + r.Intn(nids))
				if seen[id] {
					continue
				}
				seen[id] = true
				es = append(es, vfC32Entry{id: id, name: vfC32Name(id, r.Chance(8)), tomb: r.Chance(35), date: dates[r.Intn(len(dates))]})
			}
			// the same repository tombstoned in several compound shards, often with equal commit dates
			// (getTombstonedRepos' tie-break)
			for _, pe := range prevTombs {
				if !seen[pe.id] && r.Chance(45) {
					seen[pe.id] = true
					dup := pe
					if r.Chance(30) {
						dup.date = dates[r.Intn(len(dates))]
					}
					es = append(es, dup)
				}
			}
			for _, e := range es {
				if e.tomb {
					prevTombs = append(prevTombs, e)
				}
			}
			p := filepath.Join(dir, fmt.Sprintf("compound-c%d_v17.00000.zoekt", c))
			vfC32WriteCompound(t, scratch, p, es)
			setMtime(p)
			classes = append(classes, "compound")
		}
		// ---- trash
		for id := uint32(1); id <= uint32(nids); id++ {
			if !r.Chance(35) {
				continue
			}
			name := vfC32Name(id, false)
			ns := []int{1, 1, 1, 1, 2, 2, 2, 3, 3, 4}[r.Intn(10)]
			together := r.Chance(65) // the shards of one repository are usually trashed by one cleanup: same mtime
			mt := time.Unix(vfC32Now+deltas[r.Intn(len(deltas))], 0)
			for k := 0; k < ns; k++ {
				p := filepath.Join(trashDir, fmt.Sprintf("%s_v16.%05d.zoekt", name, k))
				vfC32WriteSimple(t, p, id, name, dates[r.Intn(len(dates))])
				if together {
					if err := os.Chtimes(p, mt, mt); err != nil {
						t.Fatal(err)
					}
				} else {
					setMtime(p)
				}
			}
			classes = append(classes, "trash")
			if ns > 1 {
				classes = append(classes, "multi-shard:trash")
			}
		}
		// ---- temp files and an unrelated file
		ntmp := r.Intn(3)
		for k := 0; k < ntmp; k++ {
			os.WriteFile(filepath.Join(dir, fmt.Sprintf("a%d_v16.00000.zoekt.%d.tmp", k, 1000+k)), []byte("partial"), 0o644)
		}
		os.WriteFile(filepath.Join(dir, "README.txt"), []byte("keep me"), 0o644)
		// ---- assigned set (no duplicates), random order
		var assigned []uint32
		for id := uint32(1); id <= uint32(nids); id++ {
			if r.Chance(55) {
				assigned = append(assigned, id)
			}
		}
		for i := len(assigned) - 1; i > 0; i-- {
			j := r.Intn(i + 1)
			assigned[i], assigned[j] = assigned[j], assigned[i]
		}
		// 6% of the cases: one assigned id occurs twice (outside the property, which speaks of assigned sets; the
		// model must still describe what the code does: the second moveAll destroys the shards just restored)
		dupID := uint32(0)
		if len(assigned) > 0 && r.Chance(6) {
			dupID = assigned[r.Intn(len(assigned))]
			assigned = append(assigned, dupID)
			classes = append(classes, "duplicate-assigned-id")
		}
		isAssigned := map[uint32]bool{}
		for _, id := range assigned {
			isAssigned[id] = true
		}

		before := vfC32Observe(t, dir)
		// ---- rename failures (moveAll's fallback): pick shard files that cleanup is likely to move
		var plan zzfs.Plan
		if r.Chance(40) {
			// shards cleanup will probably move: trashed shards of assigned repositories that are not alive in the
			// index (restore), simple shards of unassigned repositories (trashing); any other shard otherwise
			var restore, trashing, other []string
			aliveIdx := vfC32Alive(before.index)
			for _, f := range before.trash {
				if len(f.entries) == 1 && isAssigned[f.entries[0].id] && len(aliveIdx[f.entries[0].id]) == 0 {
					restore = append(restore, f.base)
				} else {
					other = append(other, f.base)
				}
			}
			for _, f := range before.index {
				if f.compound {
					continue
				}
				if len(f.entries) == 1 && !isAssigned[f.entries[0].id] {
					trashing = append(trashing, f.base)
				} else {
					other = append(other, f.base)
				}
			}
			// moveAll handles the shards of one repository in file-name order: a failure on the 2nd or a later shard
			// happens after earlier shards were moved (the fallback must clean those up at their destination)
			groups := func(bases []string, fs []vfC32File) [][]string {
				byID := map[uint32][]string{}
				var ids []uint32
				for _, b := range bases {
					id := vfC32Find(fs, b).entries[0].id
					if len(byID[id]) == 0 {
						ids = append(ids, id)
					}
					byID[id] = append(byID[id], b)
				}
				var out [][]string
				for _, id := range ids {
					if g := byID[id]; len(g) >= 2 {
						sort.Strings(g)
						out = append(out, g)
					}
				}
				return out
			}
			multiRestore, multiTrashing := groups(restore, before.trash), groups(trashing, before.index)
			for k := 0; k < 1+r.Intn(2); k++ {
				if mg := append(append([][]string{}, multiRestore...), multiTrashing...); len(mg) > 0 && r.Chance(65) {
					g := mg[r.Intn(len(mg))]
					b := g[1+r.Intn(len(g)-1)]
					plan.Fail = append(plan.Fail, zzfs.Sel{Seq: -1, Kind: "Rename", Args: []string{"$/" + b}, Occ: -1})
					continue
				}
				cands := other
				if len(restore) > 0 && r.Chance(45) {
					cands = restore
				} else if len(trashing) > 0 && r.Chance(70) {
					cands = trashing
				}
				if len(cands) > 0 {
					plan.Fail = append(plan.Fail, zzfs.Sel{Seq: -1, Kind: "Rename", Args: []string{"$/" + cands[r.Intn(len(cands))]}, Occ: -1})
				}
			}
		}
		zzfs.Reset(plan)
		cleanup(dir, append([]uint32(nil), assigned...), now, sm)
		var failIdx, failTrash []string // base names whose rename into the index / into the trash was made to fail
		for _, op := range zzfs.Log() {
			if op.Kind == "Rename" && op.Result == "injected" && len(op.Args) > 0 {
				if filepath.Base(filepath.Dir(op.Args[0])) == ".trash" {
					failIdx = append(failIdx, filepath.Base(op.Args[0]))
				} else {
					failTrash = append(failTrash, filepath.Base(op.Args[0]))
				}
			}
		}
		zzfs.Reset(zzfs.Plan{})
		failedID := map[uint32]bool{} // repositories whose restore from the trash hit a failing rename
		for _, b := range failIdx {
			if f := vfC32Find(before.trash, b); f != nil {
				for _, e := range f.entries {
					failedID[e.id] = true
				}
			}
		}
		if len(failIdx) > 0 {
			classes = append(classes, "rename-failure:restore")
		}
		if len(failTrash) > 0 {
			classes = append(classes, "rename-failure:trashing")
		}
		later := func(bases []string) bool { // a failing rename on a shard numbered >= 1: earlier shards were moved before
			for _, b := range bases {
				if !strings.Contains(b, ".00000.") {
					return true
				}
			}
			return false
		}
		if later(failIdx) {
			classes = append(classes, "rename-failure:restore:2nd-or-later-shard")
		}
		if later(failTrash) {
			classes = append(classes, "rename-failure:trashing:2nd-or-later-shard")
		}
		after1 := vfC32Observe(t, dir)
		cleanup(dir, append([]uint32(nil), assigned...), now, sm)
		after2 := vfC32Observe(t, dir)

		replay := map[string]any{"shardMerging": sm, "assigned": assigned, "now": vfC32Now, "before": vfC32Desc(before),
			"renames_failed_into_index": failIdx, "renames_failed_into_trash": failTrash,
			"after": vfC32Desc(after1), "after_second_cleanup": vfC32Desc(after2), "seed": vfSeed(), "case": ci}

		// ---- Go-side oracle of the property
		aliveB, aliveA := vfC32Alive(before.index), vfC32Alive(after1.index)
		trashB := vfC32Alive(before.trash)
		consistent := func(id uint32) bool {
			fs := aliveB[id]
			for _, f := range fs {
				n0, _ := vfC32AliveName(fs[0], id)
				n1, _ := vfC32AliveName(f, id)
				if n0 != n1 {
					return false
				}
			}
			return true
		}
		trashOld := func(id uint32) bool {
			for _, f := range trashB[id] {
				if f.mtime < -86400 {
					return true
				}
			}
			return false
		}
		for _, id := range assigned {
			if len(aliveB[id]) > 0 {
				if !consistent(id) {
					continue
				}
				// assigned_kept
				for _, f := range aliveB[id] {
					g := vfC32Find(after1.index, f.base)
					nb, _ := vfC32AliveName(f, id)
					na, ok := "", false
					if g != nil {
						na, ok = vfC32AliveName(*g, id)
					}
					if g == nil || !ok || na != nb {
						key := "assigned-lost:other"
						if f.compound && g == nil {
							// who shared the compound shard?
							cause := "unknown"
							for _, e := range f.entries {
								if e.tomb || e.id == id {
									continue
								}
								if !consistent(e.id) {
									cause = "co-tenant-renamed"
								} else if !isAssigned[e.id] && cause == "unknown" {
									if len(aliveB[e.id]) == 1 {
										cause = "co-tenant-unassigned"
									} else {
										cause = "co-tenant-unassigned-with-other-shards"
									}
								}
							}
							key = fmt.Sprintf("assigned-lost:compound-shard-deleted:shardMerging=%v:%s", sm, cause)
						}
						vfOracleFail(key, fmt.Sprintf("cleanup lost shard %s of assigned repository %d", f.base, id), replay)
					}
				}
				continue
			}
			// not in the index before
			if len(trashB[id]) > 0 && !trashOld(id) {
				if id == dupID {
					// assumption of assigned_restored_from_trash violated (C32_assigned_restored_duplicate_id_refuted)
					classes = append(classes, "duplicate-assigned-id:in-trash")
					continue
				}
				if failedID[id] {
					// moveAll's fallback deletes all shards of the repository it could not move
					classes = append(classes, "rename-failure:restore:repository-dropped")
					continue
				}
				for _, f := range trashB[id] {
					g := vfC32Find(after1.index, f.base)
					if g == nil {
						vfOracleFail("not-restored-from-trash", fmt.Sprintf("assigned repository %d: fresh trashed shard %s was not restored", id, f.base), replay)
					} else if _, ok := vfC32AliveName(*g, id); !ok {
						vfOracleFail("not-restored-from-trash", fmt.Sprintf("assigned repository %d: restored shard %s does not serve it", id, f.base), replay)
					}
				}
				continue
			}
			tombstoned := false
			for _, f := range before.index {
				if !f.compound {
					continue
				}
				for _, e := range f.entries {
					if e.id == id && e.tomb {
						tombstoned = true
					}
				}
			}
			if tombstoned && len(aliveA[id]) == 0 {
				key := "not-untombstoned"
				// the shard getTombstonedRepos selects: latest commit date, later file on ties
				var best *vfC32File
				var bestDate int64
				for i := range before.index {
					f := &before.index[i]
					if !f.compound {
						continue
					}
					for _, e := range f.entries {
						if e.id == id && e.tomb && (best == nil || !(bestDate > e.date)) {
							best, bestDate = f, e.date
						}
					}
				}
				if best != nil && vfC32Find(after1.index, best.base) == nil {
					key = fmt.Sprintf("not-untombstoned:compound-shard-deleted:shardMerging=%v", sm)
					// the one remaining way to lose the selected shard: every repository alive in it is a renamed one
					// (purged by "delete and start over" before the revival phase) and shard merging is off
					alive, renamedOnly := 0, true
					for _, e := range best.entries {
						if !e.tomb {
							alive++
							if consistent(e.id) {
								renamedOnly = false
							}
						}
					}
					if alive > 0 && renamedOnly {
						key += ":only-alive-tenant-renamed"
					}
				}
				vfOracleFail(key, fmt.Sprintf("assigned repository %d is only tombstoned in the index but was not revived", id), replay)
			}
		}
		// all-or-nothing (also under injected rename failures): the simple shards of a repository are moved, restored
		// or dropped TOGETHER — what is live in the index afterwards, and what sits in the trash afterwards, is for every
		// repository either nothing or one complete shard set it had before (the indexed set or the trashed set), never
		// a strict subset (a partially restored repository answers searches with part of its files; a partial copy in
		// the trash is restored as such later)
		{
			simple := func(fs []vfC32File, id uint32) []string {
				var out []string
				for _, f := range fs {
					if f.compound {
						continue
					}
					for _, e := range f.entries {
						if e.id == id {
							out = append(out, f.base)
							break
						}
					}
				}
				sort.Strings(out)
				return out
			}
			idSet := map[uint32]bool{}
			for _, d := range []vfC32Dir{before, after1} {
				for _, fs := range [][]vfC32File{d.index, d.trash} {
					for _, f := range fs {
						for _, e := range f.entries {
							idSet[e.id] = true
						}
					}
				}
			}
			var allIDs []uint32
			for id := range idSet {
				allIDs = append(allIDs, id)
			}
			sort.Slice(allIDs, func(i, j int) bool { return allIDs[i] < allIDs[j] })
			for _, id := range allIDs {
				bi, bt := simple(before.index, id), simple(before.trash, id)
				complete := func(x []string) bool {
					return len(x) == 0 || fmt.Sprint(x) == fmt.Sprint(bi) || fmt.Sprint(x) == fmt.Sprint(bt)
				}
				who := "unassigned"
				if isAssigned[id] {
					who = "assigned"
				}
				cause := "fault-free"
				if len(failIdx)+len(failTrash) > 0 {
					cause = "after-rename-failure"
				}
				if ai := simple(after1.index, id); !complete(ai) {
					vfOracleFail("partial-shard-set:live-in-index:"+who+":"+cause,
						fmt.Sprintf("repository %d: after cleanup the index holds shards %v — a strict subset of its shard set (indexed before: %v, trashed before: %v)", id, ai, bi, bt), replay)
				}
				if at := simple(after1.trash, id); !complete(at) {
					vfOracleFail("partial-shard-set:in-trash:"+who+":"+cause,
						fmt.Sprintf("repository %d: after cleanup the trash holds shards %v — a strict subset of its shard set (indexed before: %v, trashed before: %v)", id, at, bi, bt), replay)
				}
			}
		}
		for id := range aliveA {
			if !isAssigned[id] {
				vfOracleFail("unassigned-still-searchable", fmt.Sprintf("unassigned repository %d is still alive in the index after cleanup", id), replay)
			}
		}
		for _, f := range before.trash {
			g := vfC32Find(after1.trash, f.base)
			var ids []uint32
			for _, e := range f.entries {
				if !e.tomb {
					ids = append(ids, e.id)
				}
			}
			if len(ids) != 1 {
				continue
			}
			id := ids[0]
			old, conflict := trashOld(id), len(aliveB[id]) > 0
			restored := vfC32Find(after1.index, f.base) != nil && isAssigned[id]
			if (id == dupID && dupID != 0) || failedID[id] {
				continue
			}
			if g == nil && !old && !conflict && !restored {
				vfOracleFail("trash-deleted-early", fmt.Sprintf("trashed shard %s (repository %d) deleted although fresh and not conflicting", f.base, id), replay)
			}
			retrashed := conflict && !isAssigned[id] // the indexed copy of an unassigned repository replaces the trashed one
			if g != nil && (old || conflict) && !retrashed {
				what := "older than 24h"
				if !old {
					what = "conflicting with the index"
				}
				vfOracleFail("trash-not-expired", fmt.Sprintf("trashed shard %s (repository %d) %s was kept", f.base, id, what), replay)
			}
			if g != nil && g.mtime > 0 {
				vfOracleFail("trash-future-mtime", fmt.Sprintf("trashed shard %s keeps an mtime in the future", f.base), replay)
			}
		}
		if after1.tmps != 0 {
			vfOracleFail("tmp-not-removed", "*.tmp files remain in the index directory", replay)
		}
		if b, err := os.ReadFile(filepath.Join(dir, "README.txt")); err != nil || string(b) != "keep me" {
			vfOracleFail("unrelated-file-touched", "cleanup touched a file that is neither shard nor tmp", replay)
		}
		// A second run is a no-op, except after a purge of a renamed repository (same id, several names): cleanup
		// deliberately "deletes and starts over", and only the next run revives a tombstoned copy.
		anyRenamed := false
		for id := range aliveB {
			if !consistent(id) {
				anyRenamed = true
			}
		}
		if fmt.Sprint(after1) != fmt.Sprint(after2) {
			compoundDeleted := false
			for _, f := range before.index {
				if f.compound && vfC32Find(after1.index, f.base) == nil {
					compoundDeleted = true
				}
			}
			if anyRenamed {
				classes = append(classes, "second-run-differs-after-rename-purge")
			} else if dupID != 0 {
				// an assigned id occurring twice is outside the property (it speaks of assigned SETS): the second pass over
				// the same id deletes what the first restored (modelled: C32_assigned_restored_duplicate_id_refuted), and the
				// next run revives the tombstoned copy. Tied by the correspondence, not an oracle failure.
				classes = append(classes, "second-run-differs-with-duplicate-assigned-id")
			} else if len(failIdx)+len(failTrash) > 0 {
				// the first run was not fault-free (injected rename failures): e.g. a repository whose restore failed
				// lost its trashed shards, so the fault-free second run revives its tombstoned copy instead
				classes = append(classes, "second-run-differs-after-rename-failure")
			} else if compoundDeleted {
				// downstream of the compound-shard deletion: UnsetTombstone hit the deleted shard, the next run revives another copy
				vfOracleFail(fmt.Sprintf("not-idempotent:compound-shard-deleted:shardMerging=%v", sm), "a second cleanup with the same arguments changed the directory (first run deleted a compound shard)", replay)
			} else {
				vfOracleFail("not-idempotent", "a second cleanup with the same arguments changed the directory", replay)
			}
		}

		// ---- correspondence record
		baseID := map[string]uint64{}
		var bases []string
		for _, d := range []vfC32Dir{before, after1, after2} {
			for _, fs := range [][]vfC32File{d.index, d.trash} {
				for _, f := range fs {
					if _, ok := baseID[f.base]; !ok {
						baseID[f.base] = 0
						bases = append(bases, f.base)
					}
				}
			}
		}
		sort.Strings(bases)
		for i, b := range bases {
			baseID[b] = uint64(i)
		}
		var ids []uint64
		for _, id := range assigned {
			ids = append(ids, uint64(id))
		}
		baseList := func(names []string) string {
			var l []uint64
			for _, b := range names {
				if id, ok := baseID[b]; ok {
					l = append(l, id)
				}
			}
			return cNList(l)
		}
		coq := cTuple(cBool(sm), cNList(ids), cTuple(baseList(failIdx), baseList(failTrash)), vfC32DirTerm(before, baseID), vfC32DirTerm(after1, baseID), vfC32DirTerm(after2, baseID))
		nontrivial := len(before.index) >= 2 && (len(before.trash) > 0 || nc > 0) && fmt.Sprint(before) != fmt.Sprint(after1)
		vfCase(coq, vfKey(sm, assigned, before), nontrivial, classes,
			map[string]any{"shardMerging": sm, "assigned": assigned, "before": vfC32Desc(before), "after": vfC32Desc(after1)})
		os.RemoveAll(dir)
		os.RemoveAll(scratch)
	}
}
