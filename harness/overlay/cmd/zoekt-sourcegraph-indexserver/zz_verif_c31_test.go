package main

// C31 trace validation + occupancy oracle for indexMutex (index_mutex.go).
// Mapped into /repo/cmd/zoekt-sourcegraph-indexserver by `go test -overlay`.
//
// Two modes (VERIF_C31_MODE):
//   plain  the unmodified index_mutex.go; only the Go-side oracle runs (atomic occupancy counters inside the
//          critical sections, With's result vs. "f ran", running map clean at the end).
//   instr  the check maps a copy of index_mutex.go in which ONLY the field types sync.RWMutex / sync.Mutex are
//          replaced by the logging wrappers below (With/Global are byte-identical). Every lock operation is logged
//          while the lock is held (after acquiring / before releasing), so the log order is a linearisation the
//          model must accept event by event.

import (
	"fmt"
	"os"
	"runtime"
	"strconv"
	"strings"
	"sync"
	"sync/atomic"
	"testing"
)

type vfC31Event struct {
	Kind string
	T    int
	Name int
	Res  bool
}

var (
	vfC31Mu     sync.Mutex
	vfC31Events []vfC31Event
	vfC31Active atomic.Bool
	vfC31Tids   sync.Map // goroutine id -> logical thread id
)

func vfC31GoID() uint64 {
	var buf [64]byte
	n := runtime.Stack(buf[:], false)
	s := strings.TrimPrefix(string(buf[:n]), "goroutine ")
	i := strings.IndexByte(s, ' ')
	id, _ := strconv.ParseUint(s[:i], 10, 64)
	return id
}
func vfC31Tid() int {
	if v, ok := vfC31Tids.Load(vfC31GoID()); ok {
		return v.(int)
	}
	return -1
}
func vfC31Log(kind string, name int, res bool) {
	if !vfC31Active.Load() {
		return
	}
	t := vfC31Tid()
	if t < 0 {
		return
	}
	vfC31Mu.Lock()
	vfC31Events = append(vfC31Events, vfC31Event{kind, t, name, res})
	vfC31Mu.Unlock()
}

// logging wrappers: same method set as the sync types used by index_mutex.go
type vfRWMutex struct{ mu sync.RWMutex }

func (m *vfRWMutex) RLock()   { m.mu.RLock(); vfC31Log("rlock", 0, false) }
func (m *vfRWMutex) RUnlock() { vfC31Log("runlock", 0, false); m.mu.RUnlock() }
func (m *vfRWMutex) Lock()    { m.mu.Lock(); vfC31Log("lock", 0, false) }
func (m *vfRWMutex) Unlock()  { vfC31Log("unlock", 0, false); m.mu.Unlock() }

type vfMutex struct{ mu sync.Mutex }

func (m *vfMutex) Lock()   { m.mu.Lock(); vfC31Log("mulock", 0, false) }
func (m *vfMutex) Unlock() { vfC31Log("muunlock", 0, false); m.mu.Unlock() }

type vfC31Op struct {
	Global bool
	Name   int
	Work   int
}

func TestVerifC31(t *testing.T) {
	mode := os.Getenv("VERIF_C31_MODE")
	r := vfNewRand(vfSeed())
	n := vfN(40)
	names := []string{"github.com/a/r0", "github.com/a/r1", "r2", ""}
	for c := 0; c < n; c++ {
		nth := 2 + r.Intn(15) // 2..16 goroutines
		nnames := 1 + r.Intn(len(names))
		pglobal := []int{0, 10, 25}[r.Intn(3)]
		progs := make([][]vfC31Op, nth)
		total := 0
		for g := range progs {
			k := 1 + r.Intn(7)
			for i := 0; i < k; i++ {
				progs[g] = append(progs[g], vfC31Op{Global: r.Chance(pglobal), Name: r.Intn(nnames), Work: r.Intn(4)})
			}
			total += k
		}
		var m indexMutex
		occ := make([]int32, len(names))
		var inWith, inGlobal int32
		var failMu sync.Mutex
		fails := map[string]string{}
		fail := func(key, what string) {
			failMu.Lock()
			if _, ok := fails[key]; !ok {
				fails[key] = what
			}
			failMu.Unlock()
		}
		vfC31Mu.Lock()
		vfC31Events = nil
		vfC31Mu.Unlock()
		vfC31Active.Store(true)
		var wg sync.WaitGroup
		start := make(chan struct{})
		var skips, globals int32
		for g := 0; g < nth; g++ {
			wg.Add(1)
			go func(g int) {
				defer wg.Done()
				gid := vfC31GoID()
				vfC31Tids.Store(gid, g)
				defer vfC31Tids.Delete(gid)
				<-start
				for _, op := range progs[g] {
					if op.Global {
						atomic.AddInt32(&globals, 1)
						vfC31Log("callglobal", 0, false)
						m.Global(func() {
							vfC31Log("enter", 0, false)
							if atomic.AddInt32(&inGlobal, 1) != 1 {
								fail("occupancy:two-globals", "two Global critical sections run at the same time")
							}
							if atomic.LoadInt32(&inWith) != 0 {
								fail("occupancy:global-with", "a Global critical section runs while a repository operation runs")
							}
							for i := 0; i < op.Work; i++ {
								runtime.Gosched()
							}
							if atomic.LoadInt32(&inWith) != 0 {
								fail("occupancy:global-with", "a repository operation started while a Global critical section runs")
							}
							atomic.AddInt32(&inGlobal, -1)
							vfC31Log("exit", 0, false)
						})
						vfC31Log("ret", 0, true)
						continue
					}
					ran := 0
					vfC31Log("callwith", op.Name, false)
					res := m.With(names[op.Name], func() {
						vfC31Log("enter", 0, false)
						ran++
						atomic.AddInt32(&inWith, 1)
						if atomic.AddInt32(&occ[op.Name], 1) != 1 {
							fail("occupancy:same-repo", fmt.Sprintf("two operations for repository %q run at the same time", names[op.Name]))
						}
						if atomic.LoadInt32(&inGlobal) != 0 {
							fail("occupancy:with-global", "a repository operation runs while a Global critical section runs")
						}
						for i := 0; i < op.Work; i++ {
							runtime.Gosched()
						}
						if atomic.LoadInt32(&inGlobal) != 0 {
							fail("occupancy:with-global", "a Global critical section started while a repository operation runs")
						}
						atomic.AddInt32(&occ[op.Name], -1)
						atomic.AddInt32(&inWith, -1)
						vfC31Log("exit", 0, false)
					})
					vfC31Log("ret", 0, res)
					if res && ran != 1 {
						fail("skip:true-but-not-run", "With returned true but f ran "+strconv.Itoa(ran)+" times")
					}
					if !res {
						atomic.AddInt32(&skips, 1)
						if ran != 0 {
							fail("skip:false-but-run", "With returned false although f ran")
						}
					}
				}
			}(g)
		}
		close(start)
		wg.Wait()
		vfC31Active.Store(false)
		m.runningMu.Lock()
		left := len(m.running)
		m.runningMu.Unlock()
		if left != 0 {
			fail("running:not-clean", fmt.Sprintf("%d entries left in the running set after all operations returned", left))
		}
		vfC31Mu.Lock()
		evs := append([]vfC31Event(nil), vfC31Events...)
		vfC31Mu.Unlock()
		// a skipped With must overlap another With for the same name (coarse, from call/return events only)
		type iv struct{ t, name, from, to int }
		var ivs []iv
		open := map[int]int{}
		oname := map[int]int{}
		skipIdx := []int{}
		for i, e := range evs {
			switch e.Kind {
			case "callwith":
				open[e.T], oname[e.T] = i, e.Name
			case "ret":
				if from, ok := open[e.T]; ok {
					ivs = append(ivs, iv{e.T, oname[e.T], from, i})
					if !e.Res {
						skipIdx = append(skipIdx, len(ivs)-1)
					}
					delete(open, e.T)
				}
			}
		}
		for _, si := range skipIdx {
			s := ivs[si]
			ok := false
			for j, o := range ivs {
				if j != si && o.t != s.t && o.name == s.name && o.from < s.to && s.from < o.to {
					ok = true
				}
			}
			if !ok {
				fail("skip:unjustified", fmt.Sprintf("With(%q) returned false although no other operation for that repository overlapped it", names[s.name]))
			}
		}
		var trace []string
		for _, e := range evs {
			trace = append(trace, fmt.Sprintf("%s t%d n%d %v", e.Kind, e.T, e.Name, e.Res))
		}
		for key, what := range fails {
			vfOracleFail(key, what, map[string]any{"mode": mode, "goroutines": nth, "programs": progs, "trace": trace})
		}
		if mode != "instr" {
			vfInfo(map[string]any{"mode": "plain", "case": c, "goroutines": nth, "ops": total, "skips": skips, "globals": globals})
			continue
		}
		// Coq case
		var terms []string
		for _, e := range evs {
			tt := cN(uint64(e.T))
			switch e.Kind {
			case "callwith":
				terms = append(terms, cApp("ECallWith", tt, cN(uint64(e.Name))))
			case "callglobal":
				terms = append(terms, cApp("ECallGlobal", tt))
			case "rlock":
				terms = append(terms, cApp("ERLock", tt))
			case "runlock":
				terms = append(terms, cApp("ERUnlock", tt))
			case "lock":
				terms = append(terms, cApp("ELock", tt))
			case "unlock":
				terms = append(terms, cApp("EUnlock", tt))
			case "mulock":
				terms = append(terms, cApp("EMuLock", tt))
			case "muunlock":
				terms = append(terms, cApp("EMuUnlock", tt))
			case "enter":
				terms = append(terms, cApp("EEnter", tt))
			case "exit":
				terms = append(terms, cApp("EExit", tt))
			case "ret":
				terms = append(terms, cApp("ERet", tt, cBool(e.Res)))
			}
		}
		tids := make([]uint64, nth)
		for g := range tids {
			tids[g] = uint64(g)
		}
		coq := cTuple(cList(terms), cNList(tids), cBool(left == 0))
		class := []string{fmt.Sprintf("goroutines=%d", nth), fmt.Sprintf("names=%d", nnames), fmt.Sprintf("pglobal=%d", pglobal)}
		if skips > 0 {
			class = append(class, "skip")
		}
		if globals > 0 {
			class = append(class, "global")
		}
		vfCase(coq, vfKey(trace), skips > 0 || globals > 0, class,
			map[string]any{"goroutines": nth, "ops": total, "events": len(evs), "skips": skips, "globals": globals, "trace_head": trace[:vfMin(len(trace), 12)]})
	}
}

func vfMin(a, b int) int {
	if a < b {
		return a
	}
	return b
}
