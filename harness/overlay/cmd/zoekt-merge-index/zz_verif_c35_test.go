package main

// C35 correspondence + oracle. Mapped into /repo/cmd/zoekt-merge-index by `go test -overlay`, together with
// fsinstrument-rewritten copies of cmd/zoekt-merge-index/main.go and index/merge.go (os.Open/CreateTemp/
// Rename/Remove/MkdirAll call sites go through the zzfs shim) — the code under test is the working tree's.
//
// For generated directories of real shards it runs the real merge() / index.Explode():
//   * without faults,
//   * with every single operation of the observed trace failing (plus "write to the temp file fails"),
//   * killed (shim "freeze") before every mutating operation, with and without a preceding fault,
//   * with an ORPHAN sidecar (a <name>.zoekt.meta without <name>.zoekt, as a kill between the two removals of
//     IndexFilePaths leaves it) waiting at a destination name of Explode / merge: real JSON of the repository
//     metadata (tombstoned / other priority), garbage, or a directory; and with a sidecar under an existing
//     shard at a destination name ("shadowed-dst"),
// observes the result and the directory (which *.zoekt / *.meta exist, what index.ReadMetadataPath says),
// emits each run as a Coq case for Model/MergeDriver.v and evaluates the property itself (no repo alive in
// two shards; nil error only if merged / exploded) directly on the directory.

import (
	"bytes"
	"context"
	"crypto/sha1"
	"encoding/json"
	"fmt"
	"os"
	"os/exec"
	"path/filepath"
	"regexp"
	"sort"
	"strconv"
	"strings"
	"testing"

	"github.com/sourcegraph/zoekt"
	"github.com/sourcegraph/zoekt/index"
	"github.com/sourcegraph/zoekt/internal/zzfs"
	"github.com/sourcegraph/zoekt/query"
)

// ---- abstract names

type c35Z struct {
	kind int // 0 simple, 1 compound, 2 other
	id   int
	l    []int
}

func c35Simple(id int) c35Z { return c35Z{kind: 0, id: id} }
func c35Other(id int) c35Z  { return c35Z{kind: 2, id: id} }
func c35Compound(l []int) c35Z {
	return c35Z{kind: 1, l: append([]int(nil), l...)}
}
func (z c35Z) key() string { return z.file() }
func (z c35Z) file() string {
	switch z.kind {
	case 0:
		return fmt.Sprintf("r%d_v16.00000.zoekt", z.id)
	case 1:
		h := sha1.New()
		for _, id := range z.l {
			h.Write([]byte(fmt.Sprintf("r%d", id)))
			h.Write([]byte{0})
		}
		return fmt.Sprintf("compound-%x_v17.00000.zoekt", h.Sum(nil))
	default:
		return fmt.Sprintf("x%d.zoekt", z.id)
	}
}
func (z c35Z) coq() string {
	switch z.kind {
	case 0:
		return "(ZSimple " + cN(uint64(z.id)) + ")"
	case 1:
		xs := make([]uint64, len(z.l))
		for i, v := range z.l {
			xs[i] = uint64(v)
		}
		return "(ZCompound " + cNList(xs) + ")"
	default:
		return "(ZOther " + cN(uint64(z.id)) + ")"
	}
}

type c35Meta struct {
	id, prio int
	tomb     bool
}

func c35MetaCoq(ms []c35Meta) string {
	if len(ms) == 0 {
		return "(@nil rmeta)"
	}
	xs := make([]string, len(ms))
	for i, m := range ms {
		xs[i] = fmt.Sprintf("(Build_rmeta %s %s %s)", cN(uint64(m.id)), cN(uint64(m.prio)), cBool(m.tomb))
	}
	return cList(xs)
}

// ---- scenario description

// a .meta file the scenario puts into the directory (besides the ones index.SetTombstone writes for compounds)
type c35Sidecar struct {
	z     c35Z
	kind  string // "json" (real JSON of the repository metadata) | "garbage" | "dir"
	metas []c35Meta
}

type c35Scenario struct {
	sidecars   []c35Sidecar
	orphanPick int
	orphanDst  string // merge: "" | "tomb" | "prio" | "garbage" | "dir": orphan sidecar at the destination, resolved by a dry run
	mode       int    // 0 merge, 1 explode
	simples    []c35Meta
	compounds  [][]c35Meta // in the order given (the harness sorts by priority as Merge does)
	garbage    []c35Z      // *.zoekt files with garbage content
	dirs       []string    // "z:<i>" PZ, "t:<i>" PTmp of names[i]/..., resolved below
	dirPaths   []c35Path
	names      []c35Z
	label      []string
}

type c35Path struct {
	kind int // 0 PZ, 1 PMeta, 2 PTmp, 3 PTemp
	z    c35Z
}

func (p c35Path) coq() string {
	return "(" + []string{"PZ", "PMeta", "PTmp", "PTemp"}[p.kind] + " " + p.z.coq() + ")"
}
func (p c35Path) file() string {
	return p.z.file() + []string{"", ".meta", ".tmp", ".tmp.0000.tmp"}[p.kind]
}

// ---- building real shards (cached bytes)

var c35Cache = map[string][]byte{}

func c35SimpleBytes(t *testing.T, m c35Meta) []byte {
	k := fmt.Sprintf("s%d/%d", m.id, m.prio)
	if b, ok := c35Cache[k]; ok {
		return b
	}
	dir := t.TempDir()
	opts := index.Options{IndexDir: dir, DisableCTags: true, RepositoryDescription: zoekt.Repository{
		Name: fmt.Sprintf("r%d", m.id), ID: uint32(m.id), RawConfig: map[string]string{"priority": strconv.Itoa(m.prio)}}}
	opts.SetDefaults()
	b, err := index.NewBuilder(opts)
	if err != nil {
		t.Fatal(err)
	}
	b.AddFile("f.txt", []byte(fmt.Sprintf("hello r%d", m.id)))
	b.AddFile("g.txt", []byte(fmt.Sprintf("bye r%d", m.id))) // >= 2 documents per repository: per-repository loops see a "same repo again" step
	if err := b.Finish(); err != nil {
		t.Fatal(err)
	}
	data, err := os.ReadFile(filepath.Join(dir, c35Simple(m.id).file()))
	if err != nil {
		t.Fatal(err)
	}
	c35Cache[k] = data
	return data
}

// the repository metadata as stored in the real simple shard of m, with the tombstone flag and priority of m
func c35RepoOf(t *testing.T, shard, m c35Meta) *zoekt.Repository {
	dir := t.TempDir()
	p := filepath.Join(dir, c35Simple(shard.id).file())
	if err := os.WriteFile(p, c35SimpleBytes(t, shard), 0o644); err != nil {
		t.Fatal(err)
	}
	rs, _, err := index.ReadMetadataPath(p)
	if err != nil || len(rs) != 1 {
		t.Fatalf("harness: metadata of simple shard: %v", err)
	}
	r := rs[0]
	r.Tombstone = m.tomb
	if r.RawConfig == nil {
		r.RawConfig = map[string]string{}
	}
	r.RawConfig["priority"] = strconv.Itoa(m.prio)
	return r
}

// the bytes of a sidecar as the tools write them: one JSON object for a simple (v16) shard (Builder.Finish),
// a JSON array for a compound (v17) shard (index.SetTombstone / JsonMarshalRepoMetaTemp)
func c35SidecarJSON(t *testing.T, sc *c35Scenario, sd c35Sidecar) []byte {
	shardOf := func(id int) c35Meta {
		for _, m := range sc.simples {
			if m.id == id {
				return c35Meta{m.id, m.prio, false}
			}
		}
		for _, ms := range sc.compounds {
			for _, m := range ms {
				if m.id == id {
					return c35Meta{m.id, m.prio, false}
				}
			}
		}
		t.Fatalf("harness: sidecar for unknown repo %d", id)
		return c35Meta{}
	}
	var v any
	if sd.z.kind == 0 {
		v = c35RepoOf(t, shardOf(sd.metas[0].id), sd.metas[0])
	} else {
		var rs []*zoekt.Repository
		for _, m := range sd.metas {
			rs = append(rs, c35RepoOf(t, shardOf(m.id), m))
		}
		v = rs
	}
	b, err := json.Marshal(v)
	if err != nil {
		t.Fatal(err)
	}
	return b
}

// returns (file name, bytes) of the compound made by the real merge from fresh simple shards
func c35CompoundBytes(t *testing.T, ms []c35Meta) (c35Z, []byte) {
	sorted := append([]c35Meta(nil), ms...)
	sort.SliceStable(sorted, func(i, j int) bool { return sorted[i].prio > sorted[j].prio })
	ids := []int{}
	for _, m := range sorted {
		ids = append(ids, m.id)
	}
	z := c35Compound(ids)
	k := "c" + fmt.Sprint(sorted)
	if b, ok := c35Cache[k]; ok {
		return z, b
	}
	dir := t.TempDir()
	var names []string
	for _, m := range ms {
		p := filepath.Join(dir, c35Simple(m.id).file())
		if err := os.WriteFile(p, c35SimpleBytes(t, m), 0o644); err != nil {
			t.Fatal(err)
		}
		names = append(names, p)
	}
	zzfs.Reset(zzfs.Plan{})
	out, err := merge(dir, names)
	if err != nil || filepath.Base(out) != z.file() {
		t.Fatalf("setup merge: out=%q err=%v want %s", out, err, z.file())
	}
	data, err := os.ReadFile(out)
	if err != nil {
		t.Fatal(err)
	}
	c35Cache[k] = data
	return z, data
}

// ---- materialise a scenario; returns the initial state as Coq (path*node) list, and the live map

type c35Init struct {
	coq     []string
	znames  map[string]c35Z // every *.zoekt name we know about, by file name
	aliveIn map[int][]string
}

func c35Setup(t *testing.T, dir string, sc *c35Scenario) *c35Init {
	in := &c35Init{znames: map[string]c35Z{}}
	add := func(z c35Z) { in.znames[z.file()] = z }
	for _, m := range sc.simples {
		z := c35Simple(m.id)
		add(z)
		if err := os.WriteFile(filepath.Join(dir, z.file()), c35SimpleBytes(t, m), 0o644); err != nil {
			t.Fatal(err)
		}
		in.coq = append(in.coq, cPair(c35Path{0, z}.coq(), "(File (CShard "+c35MetaCoq([]c35Meta{{m.id, m.prio, false}})+"))"))
	}
	for _, ms := range sc.compounds {
		z, data := c35CompoundBytes(t, ms)
		add(z)
		p := filepath.Join(dir, z.file())
		if err := os.WriteFile(p, data, 0o644); err != nil {
			t.Fatal(err)
		}
		sorted := append([]c35Meta(nil), ms...)
		sort.SliceStable(sorted, func(i, j int) bool { return sorted[i].prio > sorted[j].prio })
		raw := make([]c35Meta, len(sorted))
		anyTomb := false
		for i, m := range sorted {
			raw[i] = c35Meta{m.id, m.prio, false}
			anyTomb = anyTomb || m.tomb
		}
		in.coq = append(in.coq, cPair(c35Path{0, z}.coq(), "(File (CShard "+c35MetaCoq(raw)+"))"))
		if anyTomb {
			for _, m := range sorted {
				if m.tomb {
					if err := index.SetTombstone(p, uint32(m.id)); err != nil {
						t.Fatal(err)
					}
				}
			}
			in.coq = append(in.coq, cPair(c35Path{1, z}.coq(), "(File (CMeta "+c35MetaCoq(sorted)+"))"))
		}
	}
	for _, z := range sc.garbage {
		add(z)
		if err := os.WriteFile(filepath.Join(dir, z.file()), []byte(strings.Repeat("garbage!", 64)), 0o644); err != nil {
			t.Fatal(err)
		}
		in.coq = append(in.coq, cPair(c35Path{0, z}.coq(), "(File CGarbage)"))
	}
	for _, p := range sc.dirPaths {
		if p.kind <= 1 {
			add(p.z)
		}
		d := filepath.Join(dir, p.file())
		if err := os.MkdirAll(d, 0o755); err != nil {
			t.Fatal(err)
		}
		if err := os.WriteFile(filepath.Join(d, "keep"), []byte("x"), 0o644); err != nil {
			t.Fatal(err)
		}
		in.coq = append(in.coq, cPair(p.coq(), "Dir"))
	}
	for _, sd := range sc.sidecars {
		add(sd.z)
		p := filepath.Join(dir, sd.z.file()+".meta")
		switch sd.kind {
		case "json":
			if err := os.WriteFile(p, c35SidecarJSON(t, sc, sd), 0o644); err != nil {
				t.Fatal(err)
			}
			in.coq = append(in.coq, cPair(c35Path{1, sd.z}.coq(), "(File (CMeta "+c35MetaCoq(sd.metas)+"))"))
		case "garbage":
			if err := os.WriteFile(p, []byte("{garbage"), 0o644); err != nil {
				t.Fatal(err)
			}
			in.coq = append(in.coq, cPair(c35Path{1, sd.z}.coq(), "(File CGarbage)"))
		default:
			if err := os.MkdirAll(p, 0o755); err != nil {
				t.Fatal(err)
			}
			if err := os.WriteFile(filepath.Join(p, "keep"), []byte("x"), 0o644); err != nil {
				t.Fatal(err)
			}
			in.coq = append(in.coq, cPair(c35Path{1, sd.z}.coq(), "Dir"))
		}
	}
	for _, z := range sc.names {
		add(z)
	}
	return in
}

// ---- observation of a directory

var c35TempRe = regexp.MustCompile(`^(.*\.zoekt)\.tmp\.[0-9]+\.tmp$`)

func c35Kind(p string) int {
	fi, err := os.Lstat(p)
	if err != nil {
		return 0
	}
	if fi.IsDir() {
		return 2
	}
	return 1
}

type c35Obs struct {
	z       c35Z
	k1, k2  int
	ok      bool
	metas   []c35Meta
	readErr string
	foreign []string // simple shards: documents that are not this repository's own ("file of repo: content")
}

// c35ForeignDocs lists the documents of the simple shard of repository id that do not belong to it (every repository's
// documents are "hello r<id>" / "bye r<id>"); the sidecar is ignored (the shard itself is searched).
func c35ForeignDocs(p string, id int) []string {
	f, err := os.Open(p)
	if err != nil {
		return nil
	}
	inf, err := index.NewIndexFile(f)
	if err != nil {
		f.Close()
		return nil
	}
	s, err := index.NewSearcher(inf)
	if err != nil {
		inf.Close()
		return nil
	}
	defer s.Close()
	res, err := s.Search(context.Background(), &query.Const{Value: true}, &zoekt.SearchOptions{Whole: true})
	if err != nil {
		return nil
	}
	var out []string
	for _, fm := range res.Files {
		c := string(fm.Content)
		if c != fmt.Sprintf("hello r%d", id) && c != fmt.Sprintf("bye r%d", id) {
			out = append(out, fmt.Sprintf("%s of %s: %q", fm.FileName, fm.Repository, c))
		}
	}
	sort.Strings(out)
	return out
}

func c35ParseRepo(name string) int {
	v, _ := strconv.Atoi(strings.TrimPrefix(name, "r"))
	return v
}

func c35Observe(t *testing.T, dir string, in *c35Init) []c35Obs {
	es, err := os.ReadDir(dir)
	if err != nil {
		t.Fatal(err)
	}
	// learn the abstract names of compound shards produced by the run: the name is the sha1 of the repo
	// names stored in the shard (all of them are alive in a freshly written compound)
	for _, e := range es {
		n := e.Name()
		if strings.HasSuffix(n, ".zoekt") && !e.IsDir() {
			if z, ok := c35Pending[n]; ok {
				in.znames[n] = z
			}
			if m := c35SimpleRe.FindStringSubmatch(n); m != nil {
				id, _ := strconv.Atoi(m[1])
				in.znames[n] = c35Simple(id)
			}
			if _, ok := in.znames[n]; !ok {
				rs, _, err := index.ReadMetadataPath(filepath.Join(dir, n))
				ids := []int{}
				if err == nil {
					for _, r := range rs {
						ids = append(ids, c35ParseRepo(r.Name))
					}
				}
				z := c35Compound(ids)
				if z.file() != n {
					t.Fatalf("harness: cannot name file %s (err=%v)", n, err)
				}
				in.znames[n] = z
			}
		}
	}
	var out []c35Obs
	for _, fn := range vfSortedKeys(in.znames) {
		z := in.znames[fn]
		o := c35Obs{z: z, k1: c35Kind(filepath.Join(dir, fn)), k2: c35Kind(filepath.Join(dir, fn+".meta"))}
		if o.k1 != 0 {
			rs, _, err := index.ReadMetadataPath(filepath.Join(dir, fn))
			if err == nil {
				o.ok = true
				for _, r := range rs {
					o.metas = append(o.metas, c35Meta{int(r.ID), int(r.GetPriority()), r.Tombstone})
				}
				if z.kind == 0 && o.k1 == 1 {
					o.foreign = c35ForeignDocs(filepath.Join(dir, fn), z.id)
				}
			} else {
				o.readErr = err.Error()
			}
		}
		out = append(out, o)
	}
	// every other file must be a tmp/temp name of a known shard name (else the abstraction misses something)
	for _, e := range es {
		n := e.Name()
		base := strings.TrimSuffix(n, ".meta")
		if _, ok := in.znames[base]; ok {
			continue
		}
		if m := c35TempRe.FindStringSubmatch(n); m != nil {
			continue
		}
		if strings.HasSuffix(n, ".zoekt.tmp") {
			continue
		}
		t.Fatalf("harness: unexpected file %s", n)
	}
	return out
}

func c35ObsCoq(os_ []c35Obs) string {
	xs := make([]string, len(os_))
	for i, o := range os_ {
		e := "None"
		if o.ok {
			e = cSome(c35MetaCoq(o.metas))
		}
		xs[i] = cTuple(o.z.coq(), cN(uint64(o.k1)), cN(uint64(o.k2)), e)
	}
	if len(xs) == 0 {
		return "(@nil obs)"
	}
	return cList(xs)
}

// alive repo id -> files
func c35Alive(os_ []c35Obs) map[int][]string {
	m := map[int][]string{}
	for _, o := range os_ {
		if !o.ok {
			continue
		}
		for _, r := range o.metas {
			if !r.tomb && (len(m[r.id]) == 0 || m[r.id][len(m[r.id])-1] != o.z.file()) {
				m[r.id] = append(m[r.id], o.z.file())
			}
		}
	}
	return m
}

// ---- mapping of logged operations to model operations

type c35Op struct {
	coq  string
	sel  zzfs.Sel
	mut  bool
	kind string
}

func c35PathOf(t *testing.T, in *c35Init, p string) c35Path {
	n := filepath.Base(p)
	if m := c35TempRe.FindStringSubmatch(n); m != nil {
		return c35Path{3, c35ZOf(t, in, m[1])}
	}
	if strings.HasSuffix(n, ".zoekt.tmp") {
		return c35Path{2, c35ZOf(t, in, strings.TrimSuffix(n, ".tmp"))}
	}
	if strings.HasSuffix(n, ".zoekt.meta") {
		return c35Path{1, c35ZOf(t, in, strings.TrimSuffix(n, ".meta"))}
	}
	return c35Path{0, c35ZOf(t, in, n)}
}

var c35SimpleRe = regexp.MustCompile(`^r([0-9]+)_v16\.00000\.zoekt$`)

func c35ZOf(t *testing.T, in *c35Init, n string) c35Z {
	if z, ok := in.znames[n]; ok {
		return z
	}
	if m := c35SimpleRe.FindStringSubmatch(n); m != nil {
		id, _ := strconv.Atoi(m[1])
		z := c35Simple(id)
		in.znames[n] = z
		return z
	}
	// a compound name not seen yet: registered later by c35Observe if the file appears; for tmp names of a
	// destination that never materialises we cannot name it from the directory -> use the pending table
	if z, ok := c35Pending[n]; ok {
		return z
	}
	t.Fatalf("harness: unknown shard name %s", n)
	return c35Z{}
}

// names of compound destinations predicted from the scenario (only used to NAME files in the abstraction)
var c35Pending = map[string]c35Z{}

func c35MapOp(t *testing.T, in *c35Init, o zzfs.Op) c35Op {
	switch o.Kind {
	case "Open":
		return c35Op{coq: "(OOpen " + c35PathOf(t, in, o.Args[0]).coq() + ")", sel: zzfs.Sel{Seq: -1, Kind: "Open", Args: []string{"$/" + filepath.Base(o.Args[0])}}, kind: "Open"}
	case "MkdirAll":
		return c35Op{coq: "OMkdirAll", sel: zzfs.Sel{Seq: -1, Kind: "MkdirAll"}, mut: true, kind: "MkdirAll"}
	case "CreateTemp":
		z := c35ZOf(t, in, strings.TrimSuffix(o.Args[1], ".tmp.*.tmp"))
		return c35Op{coq: "(OCreateTemp " + c35Path{3, z}.coq() + ")", sel: zzfs.Sel{Seq: -1, Kind: "CreateTemp", Args: []string{"", "=" + o.Args[1]}}, mut: true, kind: "CreateTemp"}
	case "Rename":
		a, b := c35PathOf(t, in, o.Args[0]), c35PathOf(t, in, o.Args[1])
		return c35Op{coq: "(ORename " + a.coq() + " " + b.coq() + ")", sel: zzfs.Sel{Seq: -1, Kind: "Rename", Args: []string{"", "$/" + filepath.Base(o.Args[1])}}, mut: true, kind: "Rename:" + []string{"final", "", "tmp", ""}[b.kind]}
	case "Remove":
		a := c35PathOf(t, in, o.Args[0])
		return c35Op{coq: "(ORemove " + a.coq() + ")", sel: zzfs.Sel{Seq: -1, Kind: "Remove", Args: []string{"$/" + filepath.Base(o.Args[0])}}, mut: true, kind: "Remove:" + []string{"shard", "meta", "tmp", "temp"}[a.kind]}
	}
	t.Fatalf("harness: unmodelled operation %+v", o)
	return c35Op{}
}

// occurrence index of ops[i] among equal model operations before it
func c35Occ(ops []c35Op, i int) int {
	n := 0
	for j := 0; j < i; j++ {
		if ops[j].coq == ops[i].coq {
			n++
		}
	}
	return n
}

// ---- one run

type c35Fault struct {
	op   c35Op
	occ  int
	mode string // "fail" | "badwrite"
}

type c35Run struct {
	code    int
	dst     string
	errText string
	ops     []c35Op
	raw     []zzfs.Op
	obs     []c35Obs
	in      *c35Init
	order   []c35Z // Explode: observed map order of the rename loop
	orderSt []c35Z // Explode: observed map order of the loop removing stale sidecars at the destination names
	// a kill point was planned but never reached: Explode's stale-sidecar loop stops at its first failure and runs in
	// map order, so an operation seen after a fault in one run need not happen in the next; the run then simply
	// completed and is emitted as a run without kill
	killMissed bool
}

func c35Exec(t *testing.T, sc *c35Scenario, fault *c35Fault, kill *c35Fault) *c35Run {
	dir, err := os.MkdirTemp(os.Getenv("VERIF_TMP"), "c35-")
	if err != nil {
		t.Fatal(err)
	}
	defer os.RemoveAll(dir)
	in := c35Setup(t, dir, sc)
	var plan zzfs.Plan
	if fault != nil {
		s := fault.op.sel
		s.Occ = fault.occ
		s.Mode = fault.mode
		plan.Fail = []zzfs.Sel{s}
	}
	if kill != nil {
		s := kill.op.sel
		s.Occ = kill.occ
		plan.Kill = &s
		plan.KillMode = "freeze"
	}
	var names []string
	for _, z := range sc.names {
		names = append(names, filepath.Join(dir, z.file()))
	}
	zzfs.Reset(plan)
	r := &c35Run{in: in}
	if sc.mode == 0 {
		out, err := merge(dir, names)
		switch {
		case err != nil:
			r.code, r.errText = 2, err.Error()
		case out == "":
			r.code = 0
		default:
			r.code, r.dst = 1, filepath.Base(out)
		}
	} else {
		err := index.Explode(dir, names[0])
		if err != nil {
			r.code, r.errText = 2, err.Error()
		}
	}
	r.raw = zzfs.Log()
	zzfs.Reset(zzfs.Plan{})
	r.obs = c35Observe(t, dir, in)
	seen, seenSt := map[string]bool{}, map[string]bool{}
	for _, o := range r.raw {
		if o.Result == "skipped" {
			continue
		}
		// the map orders include the operation the run was killed at (it is the next one in that run's order)
		if sc.mode == 1 && o.Kind == "Rename" {
			p := c35PathOf(t, in, o.Args[1])
			if p.kind == 0 && !seen[p.z.file()] {
				seen[p.z.file()] = true
				r.order = append(r.order, p.z)
			}
		}
		if sc.mode == 1 && o.Kind == "Remove" {
			p := c35PathOf(t, in, o.Args[0])
			if p.kind == 1 && p.z.file() != sc.names[0].file() && !seenSt[p.z.file()] {
				seenSt[p.z.file()] = true
				r.orderSt = append(r.orderSt, p.z)
			}
		}
		if o.Result == "killed" {
			continue
		}
		r.ops = append(r.ops, c35MapOp(t, in, o))
	}
	if kill != nil {
		r.killMissed = true
		for _, o := range r.raw {
			if o.Result == "killed" {
				r.killMissed = false
			}
		}
		if !r.killMissed {
			r.code = 3
		}
	}
	return r
}

func c35FaultCoq(f *c35Fault) (string, string) {
	c := f.op.coq
	if f.mode == "badwrite" {
		c = strings.Replace(c, "(OCreateTemp ", "(OWrite ", 1)
	}
	return cPair(c, cNat(f.occ)), f.op.kind + "/" + f.mode
}

func c35Emit(t *testing.T, sc *c35Scenario, fault, kill *c35Fault, r *c35Run, initial map[int][]string) {
	faults, killC := "(@nil (op * nat))", "None"
	classes := append([]string{[]string{"merge", "explode"}[sc.mode]}, sc.label...)
	desc := map[string]any{"mode": []string{"merge", "explode"}[sc.mode], "labels": sc.label, "result": r.code, "err": r.errText}
	if fault != nil {
		fc, cl := c35FaultCoq(fault)
		faults = cList([]string{fc})
		classes = append(classes, "fault:"+cl)
		desc["fault"] = fc
	}
	if kill != nil {
		kc, cl := c35FaultCoq(kill)
		killC = cSome(kc)
		classes = append(classes, "kill:"+cl)
		desc["kill"] = kc
	}
	names := make([]string, len(sc.names))
	for i, z := range sc.names {
		names[i] = z.coq()
	}
	order := make([]string, len(r.order))
	for i, z := range r.order {
		order[i] = z.coq()
	}
	orderSt := make([]string, len(r.orderSt))
	for i, z := range r.orderSt {
		orderSt[i] = z.coq()
	}
	dst := "None"
	if r.dst != "" {
		dst = cSome(c35ZOf(t, r.in, r.dst).coq())
	}
	lst := func(xs []string, ty string) string {
		if len(xs) == 0 {
			return "(@nil " + ty + ")"
		}
		return cList(xs)
	}
	term := cTuple(cN(uint64(sc.mode)), lst(r.in.coq, "(path * node)"), lst(names, "zname"), faults, killC, lst(order, "zname"), lst(orderSt, "zname"),
		cN(uint64(r.code)), dst, c35ObsCoq(r.obs))
	var tr []string
	for _, o := range r.raw {
		a := make([]string, len(o.Args))
		for i, x := range o.Args {
			a[i] = filepath.Base(x)
		}
		tr = append(tr, fmt.Sprintf("%s%v=%s", o.Kind, a, o.Result))
	}
	desc["trace"] = tr
	key := fmt.Sprint(sc.mode, r.in.coq, names, faults, killC)
	vfCase(term, key, fault != nil || kill != nil || len(sc.label) > 1, classes, desc)

	// ---- the property itself, on the directory
	replay := map[string]any{"scenario": desc, "initial_alive": fmt.Sprint(initial), "final_alive": fmt.Sprint(c35Alive(r.obs)),
		"how": "props/C35/NOTES.md (replay): build the listed shards, apply the fault through the zzfs plan, run merge/Explode"}
	alive := c35Alive(r.obs)
	// scenarios with an orphan sidecar at a destination name get keys of their own
	orphan := false
	for _, l := range sc.label {
		orphan = orphan || l == "orphan-sidecar"
	}
	for id, files := range alive {
		if len(files) > 1 {
			k := strings.Join(classes[len(classes)-1:], ",")
			if orphan {
				k = "orphan-sidecar"
				if fault != nil || kill != nil {
					k += "+" + strings.Join(classes[len(classes)-1:], ",")
				}
			}
			vfOracleFail("duplicate-visibility:"+k, fmt.Sprintf("repo r%d alive in %v", id, files), replay)
		}
	}
	if kill == nil && r.code != 2 {
		cause := "no-fault"
		if fault != nil {
			_, cause = c35FaultCoq(fault)
		}
		if fault == nil && len(sc.label) > 1 {
			cause += ";" + sc.label[len(sc.label)-1]
		}
		if orphan {
			if fault == nil {
				cause = "orphan-sidecar"
			} else {
				cause = "orphan-sidecar+" + cause
			}
		}
		if sc.mode == 0 {
			bad := ""
			if r.code == 0 {
				bad = "merge returned the empty path with a nil error"
			} else {
				for _, z := range sc.names {
					for id, files := range initial {
						for _, f := range files {
							if f == z.file() && (len(alive[id]) != 1 || alive[id][0] != r.dst) {
								bad = fmt.Sprintf("input repo r%d is not alive in the returned compound %s", id, r.dst)
							}
						}
					}
					for _, o := range r.obs {
						if o.z.file() == z.file() && z.file() != r.dst && o.k1 != 0 {
							bad = "input shard " + z.file() + " still exists"
						}
					}
				}
			}
			if bad != "" {
				vfOracleFail("merge-success-untruthful:"+cause, bad, replay)
			}
		} else {
			bad := ""
			c := sc.names[0]
			for _, o := range r.obs {
				if o.z.file() == c.file() && o.k1 != 0 {
					bad = "compound shard still exists"
				}
			}
			for id, files := range initial {
				for _, f := range files {
					if f == c.file() && (len(alive[id]) != 1 || alive[id][0] != c35Simple(id).file()) {
						bad = fmt.Sprintf("repo r%d of the compound is not alive in its simple shard afterwards (alive in %v)", id, alive[id])
					}
				}
			}
			if bad != "" {
				vfOracleFail("explode-success-untruthful:"+cause, bad, replay)
			}
			// "back in its own shard" also means: with its own documents only (a tombstoned member's documents must not end
			// up in a neighbour's shard)
			for _, o := range r.obs {
				if len(o.foreign) > 0 {
					vfOracleFail("explode-success-untruthful:foreign-documents:"+cause, fmt.Sprintf("after a successful explode the simple shard %s contains documents of another repository: %v", o.z.file(), o.foreign), replay)
				}
			}
		}
	}
}

// ---- scenario generator

// force: "" = random; "merge:<variant>" / "explode:<variant>" = a plain scenario of that mode with an orphan
// sidecar of that variant (tomb|prio|garbage|dir) at a destination name; "explode:shadowed" = destination taken by
// a shard with a sidecar; "<mode>:reindexed" = a compound with a tombstoned member that is alive in a simple shard
// beside it.  Every run of the check starts with these so that the classes are always covered.
func c35Gen(r *vfRand, force string) *c35Scenario {
	sc := &c35Scenario{mode: r.Intn(2)}
	variant := ""
	if i := strings.Index(force, ":"); i >= 0 {
		sc.mode = map[string]int{"merge": 0, "explode": 1}[force[:i]]
		variant = force[i+1:]
	}
	orphanVariant := variant != "" && variant != "shadowed" && variant != "reindexed"
	perm := []int{1, 2, 3, 4, 5, 6, 7}
	for i := len(perm) - 1; i > 0; i-- {
		j := r.Intn(i + 1)
		perm[i], perm[j] = perm[j], perm[i]
	}
	prios := []int{10, 20, 30, 40, 50, 60, 70}
	for i := len(prios) - 1; i > 0; i-- {
		j := r.Intn(i + 1)
		prios[i], prios[j] = prios[j], prios[i]
	}
	next := 0
	fresh := func() c35Meta { m := c35Meta{perm[next], prios[next], false}; next++; return m }
	if r.Chance(60) { // a bystander shard
		sc.simples = append(sc.simples, fresh())
	}
	if sc.mode == 0 {
		k := 1 + r.Intn(3)
		for i := 0; i < k; i++ {
			m := fresh()
			sc.simples = append(sc.simples, m)
			sc.names = append(sc.names, c35Simple(m.id))
		}
		sc.label = []string{fmt.Sprintf("inputs=%d", k)}
		if (r.Chance(35) || variant == "reindexed") && next+2 <= len(perm) { // a compound input, possibly with tombstones
			ms := []c35Meta{fresh(), fresh()}
			lab := "compound-input"
			if r.Chance(60) || variant == "reindexed" {
				ms[r.Intn(2)].tomb = true
				lab += "+tombstone"
			}
			sc.compounds = append(sc.compounds, ms)
			sorted := append([]c35Meta(nil), ms...)
			sort.SliceStable(sorted, func(i, j int) bool { return sorted[i].prio > sorted[j].prio })
			sc.names = append(sc.names, c35Compound([]int{sorted[0].id, sorted[1].id}))
			sc.label = append(sc.label, lab)
		}
		// shuffle names a little
		if len(sc.names) > 1 && r.Bool() {
			sc.names[0], sc.names[len(sc.names)-1] = sc.names[len(sc.names)-1], sc.names[0]
		}
		defect := r.Intn(10)
		if force != "" {
			defect = 9
		}
		switch defect {
		case 0:
			sc.names = append(sc.names, c35Other(1))
			sc.label = append(sc.label, "missing-input")
		case 1:
			sc.garbage = append(sc.garbage, c35Other(2))
			sc.names = append(sc.names, c35Other(2))
			sc.label = append(sc.label, "garbage-input")
		case 2:
			sc.dirPaths = append(sc.dirPaths, c35Path{0, c35Other(3)})
			sc.names = append(sc.names, c35Other(3))
			sc.label = append(sc.label, "dir-input")
		case 3:
			sc.names = append(sc.names, sc.names[0])
			sc.label = append(sc.label, "duplicate-name")
		case 4, 5:
			// a directory squatting on the destination name or its .tmp name
			sc.label = append(sc.label, "dst-obstacle")
			sc.dirs = append(sc.dirs, []string{"z", "t"}[r.Intn(2)])
		}
		if (r.Chance(30) && force == "") || orphanVariant {
			// an orphan sidecar waits at the destination name (left by a run killed between removing an earlier
			// compound of the same repositories and removing its .meta); resolved once the destination is known
			sc.orphanDst = []string{"tomb", "tomb", "tomb", "tomb", "prio", "prio", "garbage", "garbage", "dir", "dir"}[r.Intn(10)]
			if orphanVariant {
				sc.orphanDst = variant
			}
			sc.orphanPick = r.Intn(1000)
			sc.label = append(sc.label, "orphan:"+sc.orphanDst, "orphan-sidecar")
		}
	} else {
		k := 1 + r.Intn(3)
		if force != "" && k < 2 {
			k = 2
		}
		if force == "explode:tomb" {
			k = 3 // at least two live repositories: two renames, the first forced scenario gets every single fault
		}
		var ms []c35Meta
		for i := 0; i < k; i++ {
			ms = append(ms, fresh())
		}
		lab := fmt.Sprintf("repos=%d", k)
		if k > 1 && (r.Chance(50) || variant == "reindexed") {
			ms[r.Intn(k)].tomb = true
			lab += "+tombstone"
		}
		sc.compounds = append(sc.compounds, ms)
		sorted := append([]c35Meta(nil), ms...)
		sort.SliceStable(sorted, func(i, j int) bool { return sorted[i].prio > sorted[j].prio })
		ids := []int{}
		for _, m := range sorted {
			ids = append(ids, m.id)
		}
		sc.names = []c35Z{c35Compound(ids)}
		sc.label = []string{lab}
		defect := r.Intn(10)
		if force != "" {
			defect = 9
		}
		switch defect {
		case 0:
			sc.compounds = nil
			sc.names = []c35Z{c35Other(1)}
			sc.label = append(sc.label, "missing-input")
		case 1:
			sc.compounds = nil
			sc.garbage = append(sc.garbage, c35Other(2))
			sc.names = []c35Z{c35Other(2)}
			sc.label = append(sc.label, "garbage-input")
		case 2, 3, 4:
			// a directory squatting on a simple shard name (rename fails) or on its .tmp name
			m := ms[r.Intn(k)]
			sc.dirPaths = append(sc.dirPaths, c35Path{[]int{0, 2}[r.Intn(2)], c35Simple(m.id)})
			sc.label = append(sc.label, "simple-obstacle")
		}
		if len(sc.compounds) == 1 {
			v := r.Intn(20)
			if variant == "shadowed" {
				v = 8
			} else if orphanVariant {
				v = 0
			} else if force != "" {
				v = 19
			}
			switch {
			case v < 7:
				// an orphan sidecar waits at the name of a simple shard Explode is going to write (or, for a
				// tombstoned member, is not going to write)
				m := ms[r.Intn(k)]
				if force != "" {
					for _, x := range ms {
						if !x.tomb {
							m = x
						}
					}
				}
				sd := c35Sidecar{z: c35Simple(m.id)}
				w := r.Intn(10)
				if orphanVariant {
					w = map[string]int{"tomb": 0, "prio": 4, "garbage": 6, "dir": 8}[variant]
				}
				switch {
				case w < 4:
					sd.kind, sd.metas = "json", []c35Meta{{m.id, m.prio, true}}
					sc.label = append(sc.label, "orphan:tomb")
				case w < 6:
					sd.kind, sd.metas = "json", []c35Meta{{m.id, m.prio + 5, false}}
					sc.label = append(sc.label, "orphan:prio")
				case w < 8:
					sd.kind = "garbage"
					sc.label = append(sc.label, "orphan:garbage")
				default:
					sd.kind = "dir"
					sc.label = append(sc.label, "orphan:dir")
				}
				sc.sidecars = append(sc.sidecars, sd)
				sc.label = append(sc.label, "orphan-sidecar")
			case v < 9 && len(sc.label) == 1:
				// a simple shard of a repository that is alive in the compound already exists, tombstoned by its
				// own sidecar: the destination name is taken by a shard WITH a sidecar
				var live []c35Meta
				for _, m := range ms {
					if !m.tomb {
						live = append(live, m)
					}
				}
				if len(live) > 0 {
					m := live[r.Intn(len(live))]
					sc.simples = append(sc.simples, c35Meta{m.id, m.prio, false})
					sc.sidecars = append(sc.sidecars, c35Sidecar{z: c35Simple(m.id), kind: "json", metas: []c35Meta{{m.id, m.prio, true}}})
					sc.label = append(sc.label, "shadowed-dst")
				}
			}
		}
	}
	// a repository tombstoned in a compound usually lives on in a newer simple shard (that is why the indexer
	// tombstoned it): put that shard beside the compound, as a bystander
	special := false
	for _, l := range sc.label {
		special = special || strings.HasPrefix(l, "orphan") || l == "shadowed-dst" || l == "simple-obstacle"
	}
	if !special && (r.Chance(50) || variant == "reindexed") {
		for _, ms := range sc.compounds {
			for _, m := range ms {
				if m.tomb {
					sc.simples = append(sc.simples, c35Meta{m.id, m.prio, false})
					sc.label = append(sc.label, "tombstoned-reindexed")
				}
			}
		}
	}
	return sc
}

// resolve "dst obstacle" once the destination is known (from a fault-free dry run without the obstacle)
func c35ResolveObstacles(t *testing.T, sc *c35Scenario) {
	if len(sc.dirs) == 0 && sc.orphanDst == "" {
		return
	}
	probe := *sc
	probe.dirs = nil
	probe.orphanDst = ""
	r := c35Exec(t, &probe, nil, nil)
	if r.code != 1 {
		sc.dirs = nil
		sc.orphanDst = ""
		var keep []string
		for _, l := range sc.label {
			if l != "dst-obstacle" && !strings.HasPrefix(l, "orphan") {
				keep = append(keep, l)
			}
		}
		sc.label = keep
		return
	}
	z := c35ZOf(t, r.in, r.dst)
	c35Pending[z.file()] = z
	for _, d := range sc.dirs {
		sc.dirPaths = append(sc.dirPaths, c35Path{map[string]int{"z": 0, "t": 2}[d], z})
	}
	sc.dirs = nil
	if sc.orphanDst != "" {
		prio := map[int]int{}
		for _, m := range sc.simples {
			prio[m.id] = m.prio
		}
		for _, ms := range sc.compounds {
			for _, m := range ms {
				prio[m.id] = m.prio
			}
		}
		sd := c35Sidecar{z: z, kind: "json"}
		for _, id := range z.l {
			sd.metas = append(sd.metas, c35Meta{id, prio[id], false})
		}
		switch sc.orphanDst {
		case "tomb":
			sd.metas[sc.orphanPick%len(sd.metas)].tomb = true
		case "prio":
			sd.metas[sc.orphanPick%len(sd.metas)].prio += 5
		default:
			sd.kind, sd.metas = sc.orphanDst, nil
		}
		sc.sidecars = append(sc.sidecars, sd)
		sc.orphanDst = ""
	}
}

func TestVerifC35(t *testing.T) {
	r := vfNewRand(vfSeed())
	budget := vfN(400)
	emitted := 0
	forced := []string{"explode:tomb", "merge:tomb", "explode:shadowed", "merge:dir", "explode:reindexed", "merge:reindexed"}
	if vfTier() == "thorough" {
		forced = append(forced, "explode:dir", "merge:garbage", "merge:prio", "explode:garbage", "explode:prio")
	}
	for round := 0; emitted < budget; round++ {
		force := ""
		if round < len(forced) {
			force = forced[round]
		}
		sc := c35Gen(r, force)
		c35ResolveObstacles(t, sc)
		base := c35Exec(t, sc, nil, nil)
		// the destination of a merge: remember its abstract name for runs in which only <dst>.tmp shows up
		if base.dst != "" {
			z := c35ZOf(t, base.in, base.dst)
			c35Pending[z.file()] = z
		}
		initial := func() map[int][]string {
			dir, _ := os.MkdirTemp(os.Getenv("VERIF_TMP"), "c35i-")
			defer os.RemoveAll(dir)
			in := c35Setup(t, dir, sc)
			return c35Alive(c35Observe(t, dir, in))
		}()
		for id, fs := range initial {
			if len(fs) > 1 {
				t.Fatalf("harness: generated initial state has r%d in %v", id, fs)
			}
		}
		c35Emit(t, sc, nil, nil, base, initial)
		emitted++
		// single faults
		var faults []*c35Fault
		for i, o := range base.ops {
			faults = append(faults, &c35Fault{op: o, occ: c35Occ(base.ops, i), mode: "fail"})
			if strings.HasPrefix(o.coq, "(OCreateTemp") {
				faults = append(faults, &c35Fault{op: o, occ: c35Occ(base.ops, i), mode: "badwrite"})
			}
		}
		if force != "" && force != "explode:tomb" && vfTier() != "thorough" {
			// quick tier, forced scenarios: fault-free run + every kill point (the first one also gets every
			// single fault, without kills after it); the random scenarios below get everything
			faults = nil
		}
		// kills without fault
		for i, o := range base.ops {
			if o.mut {
				k := &c35Fault{op: o, occ: c35Occ(base.ops, i), mode: "fail"}
				kr := c35Exec(t, sc, nil, k)
				if kr.killMissed {
					t.Fatalf("harness: kill point %s of a fault-free run was not reached", k.op.coq)
				}
				c35Emit(t, sc, nil, k, kr, initial)
				emitted++
			}
		}
		for _, f := range faults {
			fr := c35Exec(t, sc, f, nil)
			c35Emit(t, sc, f, nil, fr, initial)
			emitted++
			// kills after this fault (a sample in the quick tier)
			for i, o := range fr.ops {
				if !o.mut || (vfTier() != "thorough" && (force != "" || !r.Chance(25))) {
					continue
				}
				k := &c35Fault{op: o, occ: c35Occ(fr.ops, i), mode: "fail"}
				kr := c35Exec(t, sc, f, k)
				if kr.killMissed {
					k = nil
				}
				c35Emit(t, sc, f, k, kr, initial)
				emitted++
			}
		}
	}
	vfInfo(map[string]any{"cases": emitted})
	c35CommandChecks(t)
}

// ---- the real command as a sub-process: the test binary re-executes itself and calls main() with the
// command line in C35_CHILD_ARGS, under a zzfs plan from ZZFS_PLAN (kill mode "exit" = os.Exit(137)).

func TestVerifC35Child(t *testing.T) {
	args := os.Getenv("C35_CHILD_ARGS")
	if args == "" {
		t.Skip("helper")
	}
	var a []string
	if err := json.Unmarshal([]byte(args), &a); err != nil {
		panic(err)
	}
	os.Args = append([]string{"zoekt-merge-index"}, a...)
	main()
	os.Exit(0)
}

func c35RunCmd(t *testing.T, plan *zzfs.Plan, args ...string) (int, string) {
	a, _ := json.Marshal(args)
	cmd := exec.Command(os.Args[0], "-test.run=TestVerifC35Child$")
	cmd.Env = append(os.Environ(), "C35_CHILD_ARGS="+string(a))
	if plan != nil {
		p, _ := json.Marshal(plan)
		cmd.Env = append(cmd.Env, "ZZFS_PLAN="+string(p))
	}
	var out bytes.Buffer
	cmd.Stdout = &out
	err := cmd.Run()
	code := 0
	if ee, ok := err.(*exec.ExitError); ok {
		code = ee.ExitCode()
	} else if err != nil {
		t.Fatalf("harness: cannot run child: %v", err)
	}
	return code, out.String()
}

// exit status and stdout of the real command vs. the directory
func c35CommandChecks(t *testing.T) {
	mk := func() (string, *c35Init, *c35Scenario) {
		dir, err := os.MkdirTemp(os.Getenv("VERIF_TMP"), "c35cmd-")
		if err != nil {
			t.Fatal(err)
		}
		sc := &c35Scenario{simples: []c35Meta{{1, 10, false}, {2, 20, false}}}
		return dir, c35Setup(t, dir, sc), sc
	}
	report := func(key, what string, extra map[string]any) { vfOracleFail("command:"+key, what, extra) }
	n := 0
	// 1. plain merge: exit 0, prints the compound path, inputs gone
	{
		dir, in, _ := mk()
		code, out := c35RunCmd(t, nil, "merge", filepath.Join(dir, "r1_v16.00000.zoekt"), filepath.Join(dir, "r2_v16.00000.zoekt"))
		alive := c35Alive(c35Observe(t, dir, in))
		want := c35Compound([]int{2, 1}).file()
		if code != 0 || strings.TrimSpace(out) != filepath.Join(dir, want) || len(alive[1]) != 1 || alive[1][0] != want || len(alive[2]) != 1 {
			report("merge-ok", fmt.Sprintf("exit=%d stdout=%q alive=%v", code, out, alive), map[string]any{"args": "merge r1 r2"})
		}
		os.RemoveAll(dir)
		n++
	}
	// 2. a missing input: must exit non-zero and print no path
	{
		dir, in, _ := mk()
		code, out := c35RunCmd(t, nil, "merge", filepath.Join(dir, "r1_v16.00000.zoekt"), filepath.Join(dir, "nope.zoekt"))
		alive := c35Alive(c35Observe(t, dir, in))
		if code == 0 || strings.TrimSpace(out) != "" || len(alive[1]) != 1 {
			report("merge-missing-input", fmt.Sprintf("exit=%d stdout=%q alive=%v: success reported although nothing was merged", code, out, alive), map[string]any{"args": "merge r1 nope"})
		}
		os.RemoveAll(dir)
		n++
	}
	// 3. killed (os.Exit(137)) before each mutation of a merge: never two shards for one repo
	for k := 0; k < 6; k++ {
		dir, in, _ := mk()
		plan := &zzfs.Plan{Kill: &zzfs.Sel{Seq: -1, Kind: "*", Occ: k}, MutOnly: true}
		code, out := c35RunCmd(t, plan, "merge", filepath.Join(dir, "r1_v16.00000.zoekt"), filepath.Join(dir, "r2_v16.00000.zoekt"))
		alive := c35Alive(c35Observe(t, dir, in))
		for id, fs := range alive {
			if len(fs) > 1 {
				report("merge-kill-duplicate", fmt.Sprintf("killed before mutation %d: r%d alive in %v", k, id, fs), map[string]any{"kill": k})
			}
		}
		if code != 137 || strings.TrimSpace(out) != "" {
			report("merge-kill-status", fmt.Sprintf("killed before mutation %d: exit=%d stdout=%q", k, code, out), map[string]any{"kill": k})
		}
		os.RemoveAll(dir)
		n++
	}
	// 4. explode with a directory on a simple shard's name: must exit non-zero
	{
		dir, err := os.MkdirTemp(os.Getenv("VERIF_TMP"), "c35cmd-")
		if err != nil {
			t.Fatal(err)
		}
		sc := &c35Scenario{compounds: [][]c35Meta{{{1, 10, false}, {2, 20, false}}}, dirPaths: []c35Path{{0, c35Simple(1)}}}
		in := c35Setup(t, dir, sc)
		comp := c35Compound([]int{2, 1}).file()
		code, _ := c35RunCmd(t, nil, "explode", filepath.Join(dir, comp))
		alive := c35Alive(c35Observe(t, dir, in))
		if code == 0 && len(alive[1]) == 0 {
			report("explode-rename-obstacle", fmt.Sprintf("exit=0 although r1 is in no shard afterwards (alive=%v)", alive), map[string]any{"args": "explode compound", "obstacle": "directory r1_v16.00000.zoekt"})
		}
		os.RemoveAll(dir)
		n++
	}
	vfInfo(map[string]any{"command_runs": n})
}
